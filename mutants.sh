#!/bin/bash
# Sensitivity suite: applies each seeded variant (mutants/<prop>/<name>.patch) to a scratch
# copy of /repo outside /repo and /verif, runs the static checker on the copy and removes it.
#   fire-*.patch   : the property's check must report a violation whose text contains the
#                    string in the patch's first line "# expect: <substring>"
#   benign-*.patch : behaviour-preserving variant; the check must stay silent
# usage: mutants.sh [-j N] [prop ...]     exit 0 = suite behaves, 3 = checker insensitive / over-sensitive
set -u
cd "$(dirname "$0")"
VERIF="$(pwd)"
export GOFLAGS=-mod=mod GOPROXY=off GOSUMDB=off GOTOOLCHAIN=local CGO_ENABLED=1
unset GOWORK
REPO="${OWCHECK_REPO:-/repo}"
J=6
if [ "${1:-}" = "-j" ]; then J="$2"; shift 2; fi
PROPS="$*"
[ -z "$PROPS" ] && PROPS=$(ls mutants | sort)
run_one() {
  patch="$1"; prop="$2"
  name=$(basename "$patch" .patch)
  tmp=$(mktemp -d /tmp/owmut.XXXXXX)
  trap 'rm -rf "$tmp"' RETURN
  mkdir -p "$tmp/repo" "$tmp/verif"
  (cd "$REPO" && tar --exclude=.git -cf - .) | (cd "$tmp/repo" && tar -xf -)
  cp "$VERIF/known-findings.json" "$tmp/verif/" 2>/dev/null
  if ! (cd "$tmp/repo" && patch -p1 -s --no-backup-if-mismatch < "$patch" >/dev/null 2>&1); then
    echo "MUTANT $prop/$name: PATCH-DOES-NOT-APPLY"; rm -rf "$tmp"; return 3
  fi
  # regenerate if the patch asks for it
  if grep -q '^# regenerate' "$patch"; then
    "$VERIF/regen.sh" "$tmp/repo" >/dev/null 2>&1 || { echo "MUTANT $prop/$name: REGEN-FAILED"; rm -rf "$tmp"; return 3; }
  fi
  out=$("$VERIF/bin/owcheck" -repo "$tmp/repo" -verif "$tmp/verif" -prop "$prop" -tier quick 2>&1); rc=$?
  rm -rf "$tmp"
  expect=$(sed -n 's/^# expect: //p' "$patch" | head -1)
  case "$name" in
    fire-*)
      if [ $rc -eq 1 ] && echo "$out" | grep -q "VIOLATION property=$prop" && echo "$out" | grep -qF -- "$expect"; then
        if echo "$out" | grep -q "UNDECIDED\|LOAD"; then
           if ! grep -q '^# undecided-ok' "$patch"; then echo "MUTANT $prop/$name: FIRED-BUT-UNDECIDED"; echo "$out" | grep -v '^KNOWN' | head -5; return 3; fi
        fi
        echo "MUTANT $prop/$name: caught"; return 0
      fi
      echo "MUTANT $prop/$name: MISSED (rc=$rc, expected text: $expect)"; echo "$out" | grep -v '^KNOWN' | tail -5; return 3;;
    benign-*)
      if [ $rc -eq 0 ]; then echo "MUTANT $prop/$name: silent (ok)"; return 0; fi
      echo "MUTANT $prop/$name: FALSE-ALARM"; echo "$out" | grep -v '^KNOWN' | tail -5; return 3;;
  esac
}
export -f run_one; export VERIF REPO
fail=0
list=$(mktemp /tmp/owmutlist.XXXXXX)
for prop in $PROPS; do
  for p in mutants/$prop/*.patch; do [ -f "$p" ] && echo "$VERIF/$p $prop" >> "$list"; done
done
n=$(wc -l < "$list")
xargs -a "$list" -P "$J" -L 1 bash -c 'run_one "$0" "$1"' > "$list.out" 2>&1
rc=$?
sort "$list.out"
caught=$(grep -c ': caught' "$list.out"); silent=$(grep -c ': silent' "$list.out")
bad=$(grep -c 'MISSED\|FALSE-ALARM\|PATCH-DOES-NOT-APPLY\|REGEN-FAILED\|FIRED-BUT-UNDECIDED' "$list.out")
rm -f "$list" "$list.out"
echo "SENSITIVITY: $n variants, $caught caught, $silent silent-as-expected, $bad bad"
[ "$bad" -eq 0 ] && [ $((caught+silent)) -eq "$n" ] || exit 3
exit 0
