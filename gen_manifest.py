#!/usr/bin/env python3
"""Regenerates MANIFEST.json from the table below (keeps it valid and current)."""
import json, sys

BASE = "cd /repo && go test -mod=mod -json -vet=off -count=1 -timeout 25m ./..."

CLAIMED = {
 # id: (category, text, design_ref, level_note, technique)
 "C20": ("other",
  "Narrow structural claim: the one relational clause of the property — 'the reported wet-bulb depression equals dry bulb minus wet bulb' — is decided as a polynomial identity between the values written to the outputs (depression + wet bulb = dry-bulb read, the wet-bulb result being an opaque symbol); an algebraically equal rewrite has the same normal form, so the rule does not freeze the expression's shape. Positivity/monotonicity of the vapour-pressure curve, the ordering dew point <= wet bulb <= dry bulb, monotonicity in humidity and finiteness are properties of transcendental formulae and a 40-step bisection and are NOT decided.",
  "DESIGN.md section 9.5",
  "Only one clause of five is decided.",
  "symbolic polynomial normal forms over go/ssa values"),
 "C11": ("other",
  "Narrow structural claim: the two Muskingum clauses of the property are decided by polynomial normal form on the kernel's SSA (nothing executed): with current inflow, previous inflow and previous outflow set to one symbol Q and no lateral, the routed outflow is identically Q after clearing the common denominator (the three weights sum to one for all k, x, dt), and the quantity carried as previous inflow is the same (upstream + lateral) quantity the first weight multiplies — this found a genuine volume leak of lateral inflow, now fixed. StorageRouting's per-step water balance and S-Q relation, non-negativity, and Lag's delay identity (incl. lags longer than the series) are value/index-arithmetic properties and are NOT decided.",
  "DESIGN.md section 9.5",
  "Carried variables are identified as the loop-carried values initialised from the states named prevInflow/prevOutflow in the spec.",
  "symbolic polynomial normal forms with denominator clearing over go/ssa values"),
 "C10": ("other",
  "Narrow structural claim: one clause of the property is decided — 'reported components add up to the reported total (runoff = quick/surface flow + baseflow)'. For Simhyd, Surm and Sacramento the values written to the total and component outputs in a timestep are expanded to polynomials over the SSA values of that timestep and the identity total = sum of components is checked by normal form (nothing is executed). Finiteness, non-negativity, store bounds and the cumulative water balance over all parameter vectors and series are value properties and are NOT decided.",
  "DESIGN.md section 9.5",
  "Opaque subexpressions (Min/Max calls, phis of the stores) are symbols; the identity must hold syntactically after expansion.",
  "symbolic polynomial normal forms over go/ssa values"),
 "C18": ("other",
  "Narrow structural claim on every path of FindRoot and Piecewise: with rho(a,b) <=> b = fn(a), extended over pairs of SSA phis as a greatest fixpoint, every `return x, delta` and every bracket pair (min/max and trial pairs) carried around the iteration satisfies rho, so the returned value is the function's value at the returned point; Piecewise returns a number only on paths where the bracket search succeeded, and the bracket search returns a usable pair only inside its scan loop under xs[j] >= x after the comparisons with the first and last knot failed (so outside and NaN arguments reach the error return). Bracketing, convergence, never-evaluated-outside and interpolation values are NOT decided.",
  "DESIGN.md section 2, C18",
  "Bracket pairs are chosen by variable naming (<p>X / <p>Delta); the relation itself is decided on SSA values.",
  "relational greatest-fixpoint analysis over SSA phi pairs + guard-edge/path checks"),
 "C19": ("other",
  "Narrow structural claim: the month-length table has the twelve Gregorian constants and is never written; the month-length function returns table[month-1] or 29 exactly under month==2 and the leap predicate; the leap predicate is decided exactly by abstract interpretation over the congruence domain: its decision tree over y%c==0 tests is evaluated for every residue class modulo lcm(c...) (required to be a multiple of 400) and equals the Gregorian rule in each class, whatever form the predicate is written in; at every call of the month-length function, the leap predicate or a helper built on them the date kernel passes its month variable in the month position and its year variable in the year position (variables told apart by the output each is written to). The generator's day/month/year roll-over and day-of-year accumulation are NOT decided.",
  "DESIGN.md section 2, C19",
  "The predicate must branch only on y%c ==/!= 0 tests (otherwise undecided). Nothing is executed; residues are abstract elements.",
  "constant evaluation by go/types + congruence-domain abstract interpretation of the CFG"),
 "C17": ("other",
  "Structural clauses of 'always answers' and of the reporting rules, decided on every path of the runner: the deferred result encoding is registered first in the entry block and encodeResults calls Encode on the runner's writer exactly once on every path (one document per exit); every interface value dereferenced between decoding and Run and every argument of Run is non-nil on all paths (nil-ness lattice with per-return-site summaries; found and fixed the no-inputs request); the catalogue factory is nil-checked before the call; a float64 enters the result tree only through JsonSafeValue under !IsNaN && !IsInf(.,0) and every element/map entry comes from the JSON-safe functions; defaults are returned only with a message, defaulted parameters and missing inputs append warnings and all warnings are logged before Run; request input k is copied into row k of the model's input array (position in the model description, not in the request); the JSON conversion never writes through the array it converts (Shape() aliases the array's own dimension vector); a supplied series reaches the copy into the input array only through the allocation it sizes or through a length comparison (found and fixed: unequal-length inputs crashed or were padded silently); the request is decoded from the caller's reader itself; the runner lacks the dimension handshake of its sibling entry points (known finding). Equivalence with a direct run and panic-freedom of kernels are NOT decided. R17.11: nothing reachable from the runner writes a package-level variable or reads one written outside initialisation (the runner keeps nothing between requests).",
  "DESIGN.md section 2, C17",
  "Results of TimeSteppingModel interface methods are assumed non-nil by contract. Kernels run in goroutines the runner cannot recover; their panic-freedom is a value property.",
  "must-pass-through / dominance checks + interprocedural nil-ness lattice + guard-edge check of the non-finite encoding on go/ssa"),
 "C14": ("other",
  "Structural necessary conditions of purity and causality, decided over every module function reachable (VTA call graph) from any wrapper method and over every kernel: no write of a package-level variable and no read of one that is written outside package initialisation; model struct fields are assigned only by ApplyParameters/InitialiseDimensions; no call of time.Now/rand/os.Getenv/file reads and no map iteration; in every kernel each read of an input series and each write of an output series inside the time loop uses the loop's own induction variable as time index (through the reaching store of the one-element index vector), inputs are read outside the loop only at index 0, no whole-series reduction of an input; Run never writes storage reachable from its inputs/parameters arguments (a later run on the same arrays would see different inputs); inside a kernel's time loop nothing that influences outputs or states derives from the length of the series (the truncation clause). Together these are sufficient for 'outputs up to t do not depend on inputs after t' given Get/Set semantics (C01). Bit-identity as such is not executed or compared. R14.7: no kernel or helper appends to a slice aliasing the shared arrays (R04.6 seen from C14).",
  "DESIGN.md section 2, C14",
  "One symbol-wide exception (routing.lag reads i-lagSteps). Stdlib internals (fmt, math) are not inspected. Rejected rule: 'every output written on every path' (early returns leave zero-initialised outputs, which the property's quantifier makes correct).",
  "call-graph reachability + global/field store scan + reaching-store evaluation of time indices on go/ssa"),
 "C13": ("other",
  "Decides the bookkeeping structure of the adaptive sub-stepping for every path through it: each accumulator weighted by the sub-step length that reaches an output executes control-equivalently with the subtraction of that sub-step from the remaining time (once per accepted sub-step, never in the trial loop) - exactly the clause the property's why_tests_cant names, and it found the rainfall/evaporation accounting defect, now fixed; the increments of the reported totals are, as symbolic monomials, terms of the volume update (R13.4), so the reported volumes are the ones that changed the volume, in the same units; final level and area are the capped table lookups of the very value returned as volume; contributions to the outflow other than the release term are conditional on volume > volumes[nLVA-1]. The min/max release bounds and numerical closure are NOT decided. R13.5: every value written to the outflow series inside the time loop is data-dependent on a function that consults both the minimum- and the maximum-release curve (followed into closures and into a struct bundling the curves), so no path through a timestep reports an outflow without the release rule. R13.6: the sub-step subtracted from the remaining time depends on a math.Min(remaining time, ·) evaluated earlier in the same iteration.",
  "DESIGN.md section 2, C13",
  "Sub-step loop recognised as `for T > 0 { ...; T -= dt }`; versions of a source variable related through SSA phi webs; R13.4 treats non-polynomial subexpressions as opaque symbols.",
  "control-equivalence (dominance/post-dominance) of accumulations + symbolic polynomial comparison of update terms on go/ssa"),
 "C12": ("other",
  "Per-timestep mass budgets decided by polynomial normal form, nothing executed: for LumpedConstituentRouting, ConstituentDecay, InstreamFineSediment, InstreamCoarseSediment, InstreamParticulateNutrient and StorageParticulateTrapping, on every feasible CFG path through one iteration of the kernel's time loop, (carried stored masses after the step) + (mass leaving or reported: downstream/flood-plain/decayed/trapped loads, rates weighted by the model's own timestep parameter) - (stored masses before) - (mass entering) expands to the zero polynomial after clearing denominators; phis are resolved by the path, helper results are opaque symbols and, if a path does not close that way, scalar helpers are inlined along each of their paths; only paths through the documented flush edge (step water volume compared with a constant <= MINIMUM_VOLUME) are exempt. Delegation between kernels (incl. the decay-disabled StorageDissolvedDecay the property names) hands over every mass input, the timestep, mass outputs and the stored mass position for position, and is nil-safe (found and fixed a nil-pointer panic; found a genuine leak of reachLocalMass in the fine-sediment model's lumped branch, recorded as a known finding). Amounts a helper removes from a working mass are computed from that same mass; where a mass is apportioned as M*X/D with D a sum of volumes, X is one of D's summands (so a share can never exceed the whole and the final clamp cannot hide created mass). NOT decided: non-negativity as such, clamps that bind (decided for the non-binding case), the remobilisation bound, StorageTrapAll (no timestep parameter: no budget can be stated), initial-state conventions before the loop. R12.6: conversion-scale inference on the typed syntax tree of models/routing and models/storage — per function a linear system over the unknown scales of its float variables (named conv/units constants shift, +, −, comparison, math.Min/Max and assignment equate, numeric literals are unknowns of their own), solved exactly; a contradiction means a quantity meets itself converted (the remobilisation cap comparing tonnes with kilograms).",
  "DESIGN.md section 2, C12",
  "The table of mass terms per model (by OW-SPEC names) is part of the checker and restates the property. Clamps against constants are read as their non-constant argument. The budget is per step; closure over a period follows by induction on steps given C06 (state threading).",
  "path-sensitive symbolic polynomial normal forms with denominator clearing and helper inlining over go/ssa + interprocedural nil-dereference summaries"),
 "C07": ("other",
  "Local invariants of the ow-sim hand-off protocol and the offset agreement, decided on the SSA of cmd/ow-sim: tokens on the writer channel are only the writer's own generation posted after writeGeneration(g) or re-posted received tokens; PurgeGeneration is only applied to received tokens (so nothing is purged before it is written); every writer path writes its generation exactly once; writer spawn and final wait share one guard; the final wait leaves only on token == genCount-1; runGeneration(i) dominates the writer spawn and link processing, links add source Outputs into destination Inputs; the loaded row range and the write offset of a generation are computed from the same leaves (0, Batches[g-1], Batches[g]); a generation returned with Count>0 has Inputs/Parameters/States assigned on every feasible path (zero inputs if none stored). Graph semantics, link sums and interleavings are NOT explored.",
  "DESIGN.md section 2, C07",
  "Anchors are found structurally (function reaching WriteData, goroutine calling it, its channel). No model checking of the writer/main interleavings; the token argument is an inductive invariant checked by local rules only.",
  "protocol invariants by dominance/must-pass-through on go/ssa + symbolic leaf comparison of offsets + bool-correlated definite assignment"),
 "C06": ("other",
  "Decides, for every path of each of the 17 stateful kernels and all 41 wrappers, that what is carried between timesteps comes from and goes back to the state vector: every value carried around the time loop (SSA header phi or buffer allocated outside the loop and read before written) that influences outputs is initialised from a STATE argument and reaches a returned state; a state the kernel evolves is not returned unevolved; wrappers read state k into kernel argument nInputs+k and write the kernel's k-th state result back to position k (or extract→kernel→pack in matching order); the two custom pack/extract pairs store the contents of every component and read it at the same symbolic offset; where a kernel hands the run to another catalogued kernel, the caller state passed as the callee's state k is the state the callee's evolved state k is returned as; in kernels with one time loop no value computed inside the loop that influences outputs or states is derived from the length of the series (run-length independence); successive counting loops that rewrite a slice-typed state buffer start at 0 or exactly where the previous one ended, as linear forms (found and fixed the lag buffer refill for calls shorter than the lag). This found six genuine defects (three repaired, two recorded as known findings needing new state variables). Numerical equality of split and unsplit runs is NOT decided. R06.7 (tool/c06refill.go) judges the once-per-call rewrites of slice-typed state buffers as a chain of events — counting loops, copy calls (windows of equal length), calls of helpers handed the buffer directly or inside a wrapping struct, translated through the call's arguments — each starting at 0 or where the previous one ended, and a shift within the buffer keeping the tail of the range rebuilt; writes through helpers, copy and wrapping structs make a vector carried memory (R06.1), and a working copy of a state buffer has to be handed back (R06.2). R06.8: a state clamped on entry (math.Min/Max against a non-constant bound) while the loop holds the same carried variable against a different bound and never against that one is reported. R06.9: on every return the value returned for each state depends on a state argument (or that argument was consumed on the way). Float fields of a local struct that the loop writes and reads are carried values like loop-header phis.",
  "DESIGN.md section 2, C06",
  "One symbol-wide exception (storageRouting:qi, solver warm start, within the property's stated tolerance). Time loops are recognised as outermost loops bounded by a series length; control influence is approximated by branch regions.",
  "loop-carried-value (SSA phi / memory) provenance analysis + symbolic layout comparison of pack/extract"),
 "C09": ("translation_validation",
  "Every generated file is validated against its generator on every run: in a scratch copy of the working tree all 47 generated files are deleted, genny and ow-specgen are rebuilt from the tree/module cache and re-run, and each output is byte-compared with the checked-in file (orphans and missing files fail). In addition the type-checked program is inspected: each OW-SPEC model has exactly one catalogue registration under its name whose factory returns that type, and Description() lists parameters (name, default, range, dimensions), inputs, outputs, states in spec order, so a template defect that regenerates consistently is still reported.",
  "DESIGN.md section 2, C09",
  "The generators are the oracle and are executed (generator code only; no model, array or I/O code runs). OW-SPEC parsing in the checker mirrors ow-specgen's preprocessing and regular expression.",
  "regenerate-and-diff translation validation + AST/SSA comparison of wrappers with parsed specs"),
 "C01": ("other",
  "Decides the shape of the index algebra for every element type and both back-ends: a unit-typed abstract interpretation (S storage cells, R allocated index, V view index; Start:S, Offset:S/R, Step:R/V, OffsetStep:S/V, loc:V) of every store to the stride fields, every index into the backing store and the result of Index, with helper functions analysed from their bodies; Slice shares the receiver's storage; every element access goes through Index(loc) of the same receiver; a view object holds no second element buffer; an operation on a view cut with a step vector is never given a step from that same vector (a step is applied once); Set1 builds its index the way Get1 does (found and fixed: through a 1xN view Set1 wrote k rows further down, outside the view). A stride-composition formula that is wrong for nested stepped slices has inconsistent units and is reported (this found the SliceInto defect, now fixed). Bounds and arithmetic beyond dimensional consistency are NOT decided. R01.6 also judges element accesses of a view cut with a step vector: the index is never scaled by that step again.",
  "DESIGN.md section 2, C01",
  "Dims/OriginalDims are untyped; literals and lengths are polymorphic; a wrong constant factor would pass. In-bounds-ness of loc/dims/step is assumed.",
  "dimensional (unit) abstract interpretation over go/ssa + storage-sharing and addressing-path checks"),
 "C02": ("other",
  "Structural clauses of the bulk operations, per element type: every range access Impl[a:b] and every write through x.Unroll() that relies on aliasing is dominated by Contiguous()==true on that object (or x is a fresh root array); the contiguity predicate branches on Step, Dims and OriginalDims/Offset; Go-backed Unroll returns a sub-slice of the storage when contiguous — and a gathered copy only on a path where Contiguous() is known false — and Reshape builds on it; ReshapeFast fails exactly under !Contiguous(), Reshape succeeds exactly on the equal edge of the element-count comparison; fresh strides are laid over own storage only when contiguous; Argmax returns an index of its parameter (index-space typing; found and fixed an off-by-one); a row-major position within a view is decoded with Offsets(dims) of the very dims it is reduced modulo (not with the array's stored strides); the whole-array helpers write their destination on every path (no value-dependent shortcut return). Equality of fast and general paths as values is NOT decided. Added in later rounds: every window cut from the backing store has an upper end (Impl[a:] runs past the view), and a fast path that pairs the flat storage of two arrays position by position is admitted only where the destination is cut to the source's shape, a guard compares the shapes, or the function's general path pairs the same arrays by one index vector (R02.11).",
  "DESIGN.md section 2, C02",
  "Exactness of Contiguous' arithmetic and of Increment/Offsets/IDivMod/Product is not decided. C-backed types are judged under C03.",
  "guard-edge dominance, alias tracking of Unroll results and index-space typing on go/ssa"),
 "C03": ("other",
  "Sibling agreement and the C ABI protocol: the C01/C02 rule sets are evaluated on the nine C-backed types (found and fixed the in-place reshape of non-contiguous C views); write-through-Unroll fast paths that can receive a C-backed array are reported (14 known findings: AddTo*/ApplyFunc1* leave a C-backed destination unchanged); unsafe.Pointer conversions exist only in the constructors and at the cgo boundary; RunSingleModel performs FindDimensions→InitialiseDimensions before ApplyParameters, which dominates InitialiseStates and Run; Run gets InitialiseStates' result exactly under initStates, else the caller's buffer; final states are copied back after Run under initStates. Output equality with the Go API is NOT decided.",
  "DESIGN.md section 2, C03",
  "No length information exists for *[1<<30]T, so buffer bounds cannot be decided; in-bounds loc is assumed. cgo-generated code is not modelled.",
  "sibling rule-set agreement + who-may-convert rule for unsafe.Pointer + dominator-based call-protocol check"),
 "C04": ("other",
  "Structural necessary conditions of cell independence, decided on each of the 41 generated wrappers and their kernels: inputs and parameter views are never written (interprocedural effect summaries incl. Unroll aliases and closure captures); every write to states/outputs goes through a view restricted to the goroutine's own cell (pos[CELL]==i, size[CELL]==1, vectors allocated per goroutine); every broadcast `i % n` uses the extent of the array actually indexed; table parameters are cut to the cell's own length; kernel arguments are the spec's inputs/params/outputs in order; no slice aliasing a shared array is grown with append; no package-level storage is written on the per-cell path (interprocedural, through helpers and slices of global arrays); the shared state array of models with a custom init function is allocated with the maximum of the cells' state-vector lengths as row width (found and fixed: rows were sized from cell 0, so N-cell GR4J/Lag runs with growing X4/timeLag panicked). Equality of values with single-cell runs is NOT established directly. Also decided: every cell is run once with its own index — the per-cell body's index parameter is the counter of the loop that starts the goroutines (from 0, step 1, up to the cell extent of the states/outputs array), through the goroutine's argument and through a spawning helper if Run delegates the fan-out (R04.9); handing the address of a package-level variable to a callee counts as writing it. R04.10: nothing that reaches outputs, states or control derives from len() of a slice-typed state row (sized for the widest cell).",
  "DESIGN.md section 2, C04",
  "ND view methods (Slice/Reshape/MustReshape/ReshapeFast) are taken to share storage (checked separately by C01/C02). Row count of pack-function results proven only for constant extents. ApplyParameters row-block arithmetic not decided.",
  "effect summaries + reaching-store evaluation of index vectors on go/ssa, per generated wrapper"),
 "C05": ("other",
  "Goroutine confinement and counted join for all 43 go statements in the module: captured variables are never assigned in the goroutine nor by the spawner once it may run; shared index vectors are never written (also not through Apply's loc); shared arrays are written only through per-cell views; every goroutine path signals exactly once and the spawner's returns are dominated by a receive loop with the same count; no function reachable from a cell goroutine writes package-level storage; nothing reachable from a cell goroutine writes through Run's inputs or a parameter view (shared by the cells whenever they repeat cyclically); no read method of any array type writes through its receiver (elements, stride/shape metadata or a scratch field). No schedule is explored; the claim is absence of shared mutable locations, from which schedule independence follows. Also decided: each cell goroutine is given its own cell index (R05.9, as R04.9 without the bound clause); a go statement in a spawning helper shared by the wrappers is judged once, the variables captured by each wrapper's per-cell body at the call; f(&global) — e.g. atomic.AddInt32 — counts as a write of the global. R05.2 accepts a sync.WaitGroup join and an in-flight limit whose receives add up to the number of goroutines started.",
  "DESIGN.md section 2, C05",
  "Does not decide the writer-vs-main access to modelReference.Generations (token argument, see C07). Pointer arguments of distinct goroutines assumed distinct. No happens-before reasoning beyond the done-channel join.",
  "escape/confinement analysis of go closures + must-pass-through send/receive join check on go/ssa CFGs"),
 "C08": ("other",
  "The lock clause is decided completely for this code base: a forward dataflow over {unlocked,R,W} with LIFO defer modelling and per-entry-state summaries covers every call path from every function that can be entered without the lock to every one of the ~570 hdf5 call sites (readers need >=R, file-mutating calls need W; goroutine bodies start unlocked). Three structural clauses are added: Create can never reach a dataset write; an existing dataset is reused only under a shape comparison that depends on both shapes; file and memory selections use the same count function. Round-trip values and selection arithmetic are value properties and NOT decided.",
  "DESIGN.md section 2, C08",
  "hdf5 is opaque (cannot be compiled here): its API is classified reader/writer/neutral by a table in tool/c08.go. Recursive read-locking is treated conservatively. Outside package io the unexported lock cannot be held: such calls are accepted only where statically no goroutine started by module code can exist.",
  "interprocedural lock-state dataflow (must-hold) over go/ssa + call-graph reachability + dominance of guard edges"),
 "C16": ("other",
  "Decided by normal forms, not by running anything: (R16.3) for the partition, scaling, conversion, mask and concentration kernels the value written to each output on every write site is expanded to a polynomial (and each such output is written on every path through a timestep) over canonical symbols (input k at the loop's time index, parameter k) and compared with the property's identities: the two outputs of the fixed/variable/rating-curve partitions sum identically to the input; scale/delivery-ratio/depth-to-rate/concentration models are exactly the stated monomial with the exact unit factor (mm->m, mg/L->kg/m3); totals equal the sum of their parts; gate/pass-through masks write the input (x factor) exactly on the positive side of their driver test and zero otherwise. (R16.1) every A_TO_B conversion constant equals magnitude(A)/magnitude(B) exactly (rational arithmetic by the type checker) and inverse pairs multiply to 1; (R16.2) constants are used as factors only. (R16.4) for USLE fine sediment, bank erosion, particulate nutrient generation, the two gully models and the demand partition, 15 relations written with OW-SPEC names (totals = sum of parts, delivered load = generated load x delivery ratio, generated fine : (fine + coarse) = the model's fine fraction, dry-weather loads linear with the mg/L->kg/m3 factor, extraction + outflow = input) hold identically on every feasible CFG path through a timestep, with phis resolved by the path and scalar helpers inlined where needed. (R16.5) for 29 driven outputs of those models, on every feasible path that is possible with the driver (flow, sediment supply) at zero the written polynomial vanishes identically, with the gully export function passed as a function value resolved and inlined. NOT decided: non-negativity as such, the gully fine/coarse split (computed behind a function value), clamps that bind. R16.6: the conversion-scale inference of R12.6 over every function of the model packages (consistent application of the named unit factors); the R16.4 table also carries the delivered-load relations of the particulate-nutrient generator.",
  "DESIGN.md section 2, C16",
  "Identity table (model -> expected polynomial) is part of the checker and restates the property; opaque calls (Piecewise, Min/Max) are symbols. SI table of unit words in tool/c16.go.",
  "symbolic polynomial normal forms over go/ssa values + go/types constant evaluation"),
}

NOT_APPLICABLE = {
 "C15": "equivalence with an external published formulation is a value property over the whole parameter box; no structural necessary condition that would not also fire on an equal rewrite (DESIGN.md section 5)",
}

PENDING = {}  # filled below: properties whose checker is not yet built in this commit

ALL = ["C%02d" % i for i in range(1, 21)]

def main():
    checks = []
    for pid in ALL:
        if pid in CLAIMED:
            cat, text, ref, note, tech = CLAIMED[pid]
            checks.append({
                "property_id": pid,
                "quick_cmd": "./check.sh %s quick" % pid,
                "thorough_cmd": "./check.sh %s thorough" % pid,
                "evidence_file": "/verif/evidence/%s.json" % pid,
                "replay_cmd_template": "./check.sh --replay {path}",
                "engine": "owcheck",
                "level_claimed": {"category": cat, "text": text, "design_ref": ref},
                "level_note": note,
                "technique": "static analysis: " + tech,
            })
    na = []
    for pid in ALL:
        if pid in CLAIMED:
            continue
        if pid in NOT_APPLICABLE:
            na.append({"property_id": pid, "reason": NOT_APPLICABLE[pid]})
        else:
            na.append({"property_id": pid, "reason": "static checker designed (DESIGN.md section 2) but not yet built in this commit; not claimed until it is"})
    m = {
        "version": 1,
        "setup_cmd": "cd /verif/tool && GOWORK=off GOFLAGS=-mod=mod GOPROXY=off GOSUMDB=off GOTOOLCHAIN=local go build -o /verif/bin/owcheck .",
        "hooks": {
            "guard": "verif",
            "enable": "no hooks: every check is a static analysis of the unmodified sources; the build tag 'verif' is reserved and unused",
            "baseline_off_cmd": BASE,
            "source_commits": [],
            "add_only": True,
        },
        "engines": [{
            "name": "owcheck",
            "path": "/verif/tool",
            "serves_properties": sorted(CLAIMED.keys()),
            "kind_free_text": "repository-specific static analyser: go/packages + go/types + go/ssa + VTA call graph (golang.org/x/tools v0.29.0); rules R<prop>.<n> per DESIGN.md",
        }],
        "checks": checks,
        "not_applicable": na,
        "notes": "All checks are static analyses of /repo's working tree (see DESIGN.md). Known genuine defects are listed in known-findings.json; fixed ones as fixed:<commit>.",
    }
    json.dump(m, open("MANIFEST.json", "w"), indent=1)
    open("MANIFEST.json", "a").write("\n")

if __name__ == "__main__":
    main()
