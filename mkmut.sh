#!/bin/bash
# helper (authoring time): mkmut.sh <prop> <fire|benign>-<name> "<expect substring>" [regenerate]  -- after editing a scratch copy at $SCRATCH
# usage pattern: SCRATCH=$(mktemp -d); cp -r /repo/. $SCRATCH; edit; ./mkmut.sh C08 fire-x "text"
set -e
prop="$1"; name="$2"; expect="$3"; regen="${4:-}"
mkdir -p /verif/mutants/$prop
out=/verif/mutants/$prop/$name.patch
{
  echo "# expect: $expect"
  [ -n "$regen" ] && echo "# regenerate"
  (cd "$SCRATCH" && git diff)
} > "$out"
(cd "$SCRATCH" && git checkout -q -- . )
echo "wrote $out ($(grep -c '^@@' $out) hunks)"
