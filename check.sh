#!/bin/bash
# usage: ./check.sh <property-id> <quick|thorough>   |   ./check.sh --replay <file>
# Static analysis of /repo's current working tree; see DESIGN.md.
set -u
cd "$(dirname "$0")"
VERIF="$(pwd)"
export GOFLAGS=-mod=mod GOPROXY=off GOSUMDB=off GOTOOLCHAIN=local CGO_ENABLED=1
unset GOWORK
REPO="${OWCHECK_REPO:-/repo}"
build() {
  if [ ! -x "$VERIF/bin/owcheck" ] || [ -n "$(find "$VERIF/tool" -name '*.go' -newer "$VERIF/bin/owcheck" 2>/dev/null | head -1)" ]; then
    mkdir -p "$VERIF/bin"
    (cd "$VERIF/tool" && go build -o "$VERIF/bin/owcheck" .) || { echo "cannot build owcheck"; exit 2; }
  fi
}
build
if [ "${1:-}" = "--replay" ]; then
  exec "$VERIF/bin/owcheck" -repo "$REPO" -verif "$VERIF" -replay "$2"
fi
ID="$1"; TIER="${2:-quick}"
if [ "$TIER" = "thorough" ]; then
  exec "$VERIF/thorough.sh" "$ID"
fi
exec "$VERIF/bin/owcheck" -repo "$REPO" -verif "$VERIF" -prop "$ID" -tier quick
