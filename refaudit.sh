#!/bin/bash
# refaudit.sh [-j N] [ref-dir ...] : (authoring time) for each stored behaviour-preserving refactoring
# (seeded/benign/R*), run every quick check on a scratch copy of /repo with the refactoring applied and list,
# per rule, where the number of obligations FELL relative to the unchanged tree. A fall is either legitimate
# (fewer code sites / paths) or a rule silently losing sight of code that moved into a helper: each must be
# looked at (DESIGN.md 9.6 "obligation-count audit"). Scratch copies live under /tmp and are removed.
set -u
cd "$(dirname "$0")"; VERIF="$(pwd)"
export GOFLAGS=-mod=mod GOPROXY=off GOSUMDB=off GOTOOLCHAIN=local CGO_ENABLED=1
unset GOWORK
J=6; if [ "${1:-}" = "-j" ]; then J="$2"; shift 2; fi
REFS="$*"; [ -z "$REFS" ] && REFS=$(ls -d seeded/benign/R* | sort -V)
IDS="C01 C02 C03 C04 C05 C06 C07 C08 C09 C10 C11 C12 C13 C14 C16 C17 C18 C19 C20"
counts() { # name patch|-
  name="$1"; patch="$2"
  tmp=$(mktemp -d /tmp/owaud.XXXXXX)
  mkdir -p $tmp/repo $tmp/verif
  (cd /repo && tar --exclude=.git -cf - .) | (cd $tmp/repo && tar -xf -)
  cp "$VERIF/known-findings.json" $tmp/verif/
  if [ "$patch" != "-" ]; then (cd $tmp/repo && grep -v '^#' "$patch" | patch -p1 -s --no-backup-if-mismatch >/dev/null 2>&1) || echo "$name PATCH-FAILED"; fi
  for id in $IDS; do
    "$VERIF/bin/owcheck" -repo $tmp/repo -verif $tmp/verif -prop $id -tier quick >/dev/null 2>&1
    python3 - "$name" "$id" "$tmp/verif/evidence/$id.json" >> "$OUT.$name" <<'PY'
import json,sys
n,i,f=sys.argv[1:]
pr=json.load(open(f))['coverage']['per_rule']
for k,v in sorted(pr.items()): print(n,i,k,v['obligations'])
PY
  done
  rm -rf $tmp
}
export -f counts
out=$(mktemp /tmp/owaud-out.XXXXXX); OUT="$out"; export VERIF IDS OUT
{ echo "BASE -"; for r in $REFS; do echo "$(basename $r) $VERIF/$r/patch.diff"; done; } | xargs -P "$J" -L 1 bash -c 'counts "$0" "$1"'
cat "$out".* > "$out"
python3 - "$out" <<'PY'
import sys,collections
rows=[l.split() for l in open(sys.argv[1]) if len(l.split())==4]
base={(i,k):int(v) for n,i,k,v in rows if n=='BASE'}
drops=collections.defaultdict(list)
for n,i,k,v in rows:
    if n!='BASE' and (i,k) in base and int(v)<base[(i,k)]:
        drops[n].append(f"{i} {k} {base[(i,k)]}->{v}")
seen={n for n,_,_,_ in rows if n!='BASE'}
for n in sorted(seen,key=lambda s:int(s[1:]) if s[1:].isdigit() else 0):
    # rules that vanished entirely
    for (i,k),b in base.items():
        if not any(r[0]==n and r[1]==i and r[2]==k for r in rows):
            drops[n].append(f"{i} {k} {b}->0")
    print(n, '; '.join(sorted(drops[n])) if drops[n] else 'no rule lost obligations')
PY
rm -f "$out" "$out".*
