#!/bin/bash
# thorough tier: placeholder until the sensitivity suite exists -> same rules with tier label.
set -u
cd "$(dirname "$0")"
VERIF="$(pwd)"
export GOFLAGS=-mod=mod GOPROXY=off GOSUMDB=off GOTOOLCHAIN=local CGO_ENABLED=1
unset GOWORK
REPO="${OWCHECK_REPO:-/repo}"
exec "$VERIF/bin/owcheck" -repo "$REPO" -verif "$VERIF" -prop "$1" -tier thorough
