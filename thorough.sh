#!/bin/bash
# thorough tier = (1) the quick rules, (2) the same rules under alternative build configurations
# (CGO_ENABLED=0; GOOS=darwin, GOOS=windows without cgo), (3) the sensitivity suite for the property
# (seeded variants in scratch copies of /repo outside /repo and /verif; see mutants.sh).
# A sensitivity failure is a broken *check* (exit 3), not a VIOLATION.
set -u
cd "$(dirname "$0")"
VERIF="$(pwd)"
export GOFLAGS=-mod=mod GOPROXY=off GOSUMDB=off GOTOOLCHAIN=local CGO_ENABLED=1
unset GOWORK
REPO="${OWCHECK_REPO:-/repo}"
ID="$1"
"$VERIF/bin/owcheck" -repo "$REPO" -verif "$VERIF" -prop "$ID" -tier thorough
rc=$?
[ $rc -ne 0 ] && exit $rc
if [ -d "$VERIF/mutants/$ID" ]; then
  out=$("$VERIF/mutants.sh" -j 8 "$ID" 2>&1); mrc=$?
  echo "$out" | tail -40
  if [ $mrc -ne 0 ]; then echo "sensitivity suite failed for $ID: the CHECK is broken (not a property violation)"; exit 3; fi
  # record the suite result in the evidence file
  python3 - "$VERIF/evidence/$ID.json" "$out" <<'PY'
import json,sys,re
p=sys.argv[1]; out=sys.argv[2]
e=json.load(open(p))
lines=[l for l in out.splitlines() if l.startswith('MUTANT')]
e['coverage']['sensitivity_suite']={'variants':len(lines),'results':lines}
json.dump(e,open(p,'w'),indent=1)
PY
fi
exit 0
